package main

// C30 - session and bearer tokens are honoured only when valid for the request.
//
// Real tokens of both session versions and bearer tokens are built with real keys in every
// supported scheme, then (optionally) damaged in one controlled way, and given to the real
// acl/v2.Service.Verify*TokenMessage. Record = {in: abstract description, out: {ok}}.
// Concrete -> abstract mapping (trusted, kept mechanical):
//   lifetime / container / object list / verb / contexts   read back from the final proto message
//   sig   "ok" iff the signature now attached was produced by the issuer's key over exactly the body now
//         carried (tracked by construction: every mutation after signing sets "bad")
//   wf    by construction (a named structural defect was injected, or not)

import (
	"bytes"
	"fmt"
	"math/rand"
	"sort"
	"time"

	"github.com/google/uuid"
	"github.com/nspcc-dev/neo-go/pkg/crypto/hash"
	"github.com/nspcc-dev/neo-go/pkg/util"
	aclsvc "github.com/nspcc-dev/neofs-node/pkg/services/object/acl/v2"
	"github.com/nspcc-dev/neofs-sdk-go/bearer"
	cid "github.com/nspcc-dev/neofs-sdk-go/container/id"
	neofscrypto "github.com/nspcc-dev/neofs-sdk-go/crypto"
	neofsecdsa "github.com/nspcc-dev/neofs-sdk-go/crypto/ecdsa"
	"github.com/nspcc-dev/neofs-sdk-go/eacl"
	oid "github.com/nspcc-dev/neofs-sdk-go/object/id"
	protoacl "github.com/nspcc-dev/neofs-sdk-go/proto/acl"
	"github.com/nspcc-dev/neofs-sdk-go/proto/refs"
	protosession "github.com/nspcc-dev/neofs-sdk-go/proto/session"
	"github.com/nspcc-dev/neofs-sdk-go/session"
	sessionv2 "github.com/nspcc-dev/neofs-sdk-go/session/v2"
	"github.com/nspcc-dev/neofs-sdk-go/user"
	"google.golang.org/protobuf/proto"
	"verifharness/internal/kit"
)

type layerAbs struct {
	Sig    string `json:"sig"`
	Subj   bool   `json:"subj"`
	Narrow bool   `json:"narrow"`
	Verbs  bool   `json:"verbs"`
	Final  bool   `json:"final"`
	// realisation of Sig = "bad": FALSE = a bit of the signature value flipped, TRUE = forged: the issuer
	// field names the legitimate party but the token is signed with a stranger's key
	Forge bool `json:"-"`
}

type ctxAbs struct {
	C     string `json:"c"`
	Verbs []int  `json:"verbs"`
}

type c30In struct {
	Kind    string     `json:"kind"`
	Wf      bool       `json:"wf"`
	Scheme  string     `json:"scheme"`
	Sig     string     `json:"sig"`
	N3ok    bool       `json:"n3ok"`
	Iat     int64      `json:"iat"`
	Nbf     int64      `json:"nbf"`
	Exp     int64      `json:"exp"`
	Cur     int64      `json:"cur"`
	NowMs   int64      `json:"nowMs"`
	Cnr     bool       `json:"cnr"`
	Obj     string     `json:"obj"`
	ObjZero bool       `json:"objZero"`
	Tv      int        `json:"tv"`
	Rv      int        `json:"rv"`
	Ctxs    []ctxAbs   `json:"ctxs"`
	Chain   []layerAbs `json:"chain"`
}

type c30Out struct {
	Ok bool `json:"ok"`
}

type c30Rec struct {
	In   c30In  `json:"in"`
	Out  c30Out `json:"out"`
	Desc kit.M  `json:"desc"`
	Idx  int    `json:"idx"`
}

var schemeNames = []string{"sha512", "rfc6979", "wc"}

const baseSec = int64(1_700_000_000)

type c30Gen struct {
	e     *env
	svc   aclsvc.Service
	reset func()
	out   *kit.W
	r     *rand.Rand
	idx   int
	only  map[int]bool // replay: emit these indices only
	n3bad string       // shape of the chain's answer for refused N3 witnesses built next (see n3BadModes)
}

func newC30Gen(outPath string, r *rand.Rand) *c30Gen {
	g := &c30Gen{e: newEnv(), out: kit.NewW(outPath), r: r}
	g.svc, g.reset = aclsvc.NewVerif(fsChain{g.e}, 64,
		aclsvc.WithContainerSource(g.e), aclsvc.WithNetmapper(netmapper{g.e}), aclsvc.WithIRFetcher(g.e), aclsvc.WithTimeProvider(g.e))
	return g
}

func (g *c30Gen) emit(in c30In, ok bool, desc kit.M) {
	if in.Ctxs == nil {
		in.Ctxs = []ctxAbs{}
	}
	if in.Chain == nil {
		in.Chain = []layerAbs{}
	}
	if in.Obj == "" {
		in.Obj = "any"
	}
	if g.only == nil || g.only[g.idx] {
		g.out.Emit(c30Rec{In: in, Out: c30Out{Ok: ok}, Desc: desc, Idx: g.idx})
	}
	g.idx++
}

func stable(m interface {
	MarshaledSize() int
	MarshalStable([]byte)
}) []byte {
	b := make([]byte, m.MarshaledSize())
	m.MarshalStable(b)
	return b
}

func signRaw(s neofscrypto.Signer, data []byte) *refs.Signature {
	sig, err := s.Sign(data)
	must(err)
	return &refs.Signature{Key: neofscrypto.PublicKeyBytes(s.Public()), Sign: sig, Scheme: refs.SignatureScheme(s.Scheme())}
}

func schemeIdx(name string) int {
	for i, n := range schemeNames {
		if n == name {
			return i
		}
	}
	return 0
}

// n3Witness registers a fake N3 witness for account: returns (invocation, verification) scripts.
func (g *c30Gen) n3Witness(ok bool) (user.ID, []byte, []byte) {
	verif := make([]byte, 20+g.r.Intn(20))
	invoc := make([]byte, 10+g.r.Intn(20))
	g.r.Read(verif)
	g.r.Read(invoc)
	g.e.n3ok[string(invoc)+string(verif)] = n3Witness{ok: ok, acc: hash.Hash160(verif), bad: g.n3bad}
	return user.NewFromScriptHash(hash.Hash160(verif)), invoc, verif
}

// ------------------------------------------------------------------------------------ V1 session

type v1Case struct {
	scheme             string
	iat, nbf, exp, cur uint64
	cnrMatch           bool
	obj                string // any | in | notin
	objZero            bool
	tv, rv             int
	n3ok               bool
}

type v1Built struct {
	m      *protosession.SessionToken
	issuer *ident
	reqCnr cid.ID
	reqObj oid.ID
}

func (g *c30Gen) buildV1(c v1Case) v1Built {
	b := v1Built{issuer: newIdent(), reqCnr: randCID(g.r)}
	if !c.objZero {
		b.reqObj = randOID(g.r)
	}
	var st session.Object
	st.SetID(uuid.New())
	st.SetAuthKey((*neofsecdsa.PublicKey)(&newIdent().priv.PublicKey))
	if c.cnrMatch {
		st.BindContainer(b.reqCnr)
	} else {
		st.BindContainer(randCID(g.r))
	}
	switch c.obj {
	case "in":
		o := b.reqObj
		if c.objZero {
			o = randOID(g.r) // nothing to contain: the request has no object
		}
		st.LimitByObjects(randOID(g.r), o)
	case "notin":
		st.LimitByObjects(randOID(g.r), randOID(g.r))
	}
	st.ForVerb(session.ObjectVerb(c.tv))
	st.SetIat(c.iat)
	st.SetNbf(c.nbf)
	st.SetExp(c.exp)
	if c.scheme == "n3" {
		acc, invoc, verif := g.n3Witness(c.n3ok)
		st.SetIssuer(acc)
		st.AttachSignature(neofscrypto.NewN3Signature(invoc, verif))
	} else {
		must(st.Sign(b.issuer.signer(schemeIdx(c.scheme))))
	}
	b.m = st.ProtoMessage()
	if c.iat == 0 && c.nbf == 0 && c.exp == 0 && c.scheme != "n3" {
		// the SDK does not serialise an all-zero lifetime; on the wire it is an empty nested message
		b.m.Body.Lifetime = &protosession.SessionToken_Body_TokenLifetime{}
		b.m.Signature = signRaw(b.issuer.signer(schemeIdx(c.scheme)), stable(b.m.Body))
	}
	return b
}

// absV1 reads the abstract relation/lifetime components back from the message.
func absV1(m *protosession.SessionToken, reqCnr cid.ID, reqObj oid.ID, in *c30In) {
	lt := m.GetBody().GetLifetime()
	in.Iat, in.Nbf, in.Exp = int64(lt.GetIat()), int64(lt.GetNbf()), int64(lt.GetExp())
	oc := m.GetBody().GetObject()
	in.Tv = int(oc.GetVerb())
	in.Cnr = bytes.Equal(oc.GetTarget().GetContainer().GetValue(), reqCnr[:])
	in.ObjZero = reqObj.IsZero()
	objs := oc.GetTarget().GetObjects()
	in.Obj = "any"
	if len(objs) > 0 {
		in.Obj = "notin"
		for _, o := range objs {
			if bytes.Equal(o.GetValue(), reqObj[:]) {
				in.Obj = "in"
			}
		}
	}
}

func (g *c30Gen) verifyV1(m *protosession.SessionToken, rv int, reqCnr cid.ID, reqObj oid.ID, cur uint64) (bool, string) {
	g.e.epoch = cur
	g.reset()
	_, err := g.svc.VerifySessionV1TokenMessage(m, session.ObjectVerb(rv), reqCnr, reqObj)
	if err != nil {
		return false, err.Error()
	}
	return true, ""
}

func (g *c30Gen) emitV1(c v1Case, b v1Built, wf bool, sig, scheme, how string) {
	in := c30In{Kind: "v1", Wf: wf, Scheme: scheme, Sig: sig, N3ok: c.n3ok, Cur: int64(c.cur), Rv: c.rv}
	absV1(b.m, b.reqCnr, b.reqObj, &in)
	ok, errs := g.verifyV1(b.m, c.rv, b.reqCnr, b.reqObj, c.cur)
	g.emit(in, ok, kit.M{"how": how, "err": errs})
}

func goodV1(r *rand.Rand) v1Case {
	cur := uint64(10 + r.Intn(1000))
	v := 1 + r.Intn(7)
	return v1Case{scheme: pick(r, schemeNames...), iat: cur, nbf: cur, exp: cur + 1, cur: cur, cnrMatch: true, obj: "any", tv: v, rv: v}
}

func (g *c30Gen) genV1() {
	r := g.r
	// (a) lifetimes around the current epoch, all schemes
	for _, cur := range []uint64{1, 7, 1000, 2147483000} {
		for d := range 27 {
			c := goodV1(r)
			c.cur, c.iat, c.nbf, c.exp = cur, cur-1+uint64(d%3), cur-1+uint64(d/3%3), cur-1+uint64(d/9)
			g.emitV1(c, g.buildV1(c), true, "ok", c.scheme, "lifetime")
		}
	}
	for d := range 8 { // epoch 0
		c := goodV1(r)
		c.cur, c.iat, c.nbf, c.exp = 0, uint64(d%2), uint64(d/2%2), uint64(d/4)
		g.emitV1(c, g.buildV1(c), true, "ok", c.scheme, "lifetime at epoch 0")
	}
	// (b) verb table x relation
	for tv := 0; tv <= 8; tv++ {
		for rv := 1; rv <= 7; rv++ {
			for _, obj := range []string{"any", "in", "notin"} {
				for _, objZero := range []bool{false, true} {
					for _, cm := range []bool{true, false} {
						if !cm && !kit.Thorough() && r.Intn(3) != 0 {
							continue
						}
						c := goodV1(r)
						c.tv, c.rv, c.obj, c.objZero, c.cnrMatch = tv, rv, obj, objZero, cm
						g.emitV1(c, g.buildV1(c), true, "ok", c.scheme, "verb/relation")
					}
				}
			}
		}
	}
	// (c) authentication classes
	reps := 2
	if kit.Thorough() {
		reps = 8
	}
	for range reps {
		for _, sch := range schemeNames {
			c := goodV1(r)
			c.scheme = sch
			g.emitV1(c, g.buildV1(c), true, "ok", sch, "valid")

			// signed fields changed after signing
			for _, f := range []string{"id", "owner", "exp", "nbf", "iat", "sessionKey", "verb", "container", "objects"} {
				b := g.buildV1(c)
				body := b.m.Body
				switch f {
				case "id":
					u := uuid.New()
					body.Id = u[:]
				case "owner":
					body.OwnerId = newIdent().id.ProtoMessage()
				case "exp":
					body.Lifetime.Exp++
				case "nbf":
					body.Lifetime.Nbf--
				case "iat":
					body.Lifetime.Iat--
				case "sessionKey":
					body.SessionKey = newIdent().pub
				case "verb":
					body.GetObject().Verb = protosession.ObjectSessionContext_Verb(1 + (c.tv % 7))
				case "container":
					body.GetObject().Target.Container = randCID(r).ProtoMessage()
				case "objects":
					body.GetObject().Target.Objects = append(body.GetObject().Target.Objects, b.reqObj.ProtoMessage())
				}
				g.emitV1(c, b, true, "bad", sch, "signed field changed after signing: "+f)
			}
			// signature object damaged
			b := g.buildV1(c)
			b.m.Signature.Sign[r.Intn(len(b.m.Signature.Sign))] ^= 1 << r.Intn(8)
			g.emitV1(c, b, true, "bad", sch, "signature value bit flipped")
			b = g.buildV1(c)
			b.m.Signature.Key = newIdent().pub
			g.emitV1(c, b, true, "bad", sch, "signature key replaced by another valid key")
			b = g.buildV1(c)
			other := (schemeIdx(sch) + 1 + r.Intn(2)) % 3
			b.m.Signature.Scheme = refs.SignatureScheme(other)
			g.emitV1(c, b, true, "bad", schemeNames[other], "scheme relabelled "+sch+"->"+schemeNames[other])
			b = g.buildV1(c)
			b.m.Signature.Scheme = refs.SignatureScheme(4 + r.Intn(100))
			g.emitV1(c, b, true, "ok", "unsupported", "unsupported scheme number")
			// signed by a key that does not belong to the issuer
			b = g.buildV1(c)
			{
				stranger := newIdent()
				b.m.Signature = signRaw(stranger.signer(schemeIdx(sch)), stable(b.m.Body))
			}
			g.emitV1(c, b, true, "bad", sch, "signed by a key that is not the issuer's")
			// re-signed by the issuer after a change: fine again
			b = g.buildV1(c)
			b.m.Body.Lifetime.Exp += 5
			b.m.Signature = signRaw(b.issuer.signer(schemeIdx(sch)), stable(b.m.Body))
			g.emitV1(c, b, true, "ok", sch, "changed and re-signed by the issuer")
			// structural defects, correctly signed
			for _, f := range []string{"no signature", "no body", "no lifetime", "no session key", "no issuer", "no context", "bad id", "no id"} {
				b := g.buildV1(c)
				switch f {
				case "no signature":
					b.m.Signature = nil
				case "no body":
					b.m.Body = nil
				case "no lifetime":
					b.m.Body.Lifetime = nil
				case "no session key":
					b.m.Body.SessionKey = nil
				case "no issuer":
					b.m.Body.OwnerId = nil
				case "no context":
					b.m.Body.Context = nil
				case "bad id":
					b.m.Body.Id = []byte{1, 2, 3}
				case "no id":
					b.m.Body.Id = nil
				}
				if b.m.Body != nil && b.m.Signature != nil {
					b.m.Signature = signRaw(b.issuer.signer(schemeIdx(sch)), stable(b.m.Body))
				}
				in := c30In{Kind: "v1", Wf: false, Scheme: sch, Sig: "ok", Cur: int64(c.cur), Rv: c.rv, Iat: int64(c.iat), Nbf: int64(c.nbf), Exp: int64(c.exp), Cnr: true, Tv: c.tv}
				ok, errs := g.verifyV1(b.m, c.rv, b.reqCnr, b.reqObj, c.cur)
				g.emit(in, ok, kit.M{"how": "structural defect (correctly signed): " + f, "err": errs})
			}
		}
		// N3 witnesses: the chain decides
		for _, mode := range append([]string{"good"}, n3BadModes...) {
			c := goodV1(r)
			c.scheme, c.n3ok = "n3", mode == "good"
			g.n3bad = mode
			g.emitV1(c, g.buildV1(c), true, "ok", "n3", "N3 witness, chain answer: "+mode)
			g.n3bad = ""
		}
		// N3 witness of another account than the issuer
		{
			c := goodV1(r)
			c.scheme, c.n3ok = "n3", true
			b := g.buildV1(c)
			b.m.Body.OwnerId = newIdent().id.ProtoMessage()
			c.n3ok = false // the chain is asked about the issuer account, for which the witness does not verify
			g.emitV1(c, b, true, "ok", "n3", "N3 witness of another account")
		}
	}
	// (d) single-bit flips of the signed body, every byte offset
	for _, sch := range schemeNames {
		c := goodV1(r)
		c.scheme, c.obj = sch, "in"
		b := g.buildV1(c)
		orig := stable(b.m.Body)
		g.flips(orig, func(mut []byte) (bool, func(string)) {
			var body protosession.SessionToken_Body
			if proto.Unmarshal(mut, &body) != nil {
				return false, nil
			}
			if bytes.Equal(stable(&body), orig) {
				return false, nil
			}
			return true, func(how string) {
				m := &protosession.SessionToken{Body: &body, Signature: b.m.Signature}
				in := c30In{Kind: "v1", Wf: true, Scheme: sch, Sig: "bad", Cur: int64(c.cur), Rv: c.rv}
				absV1(m, b.reqCnr, b.reqObj, &in)
				ok, errs := g.verifyV1(m, c.rv, b.reqCnr, b.reqObj, c.cur)
				g.emit(in, ok, kit.M{"how": how, "err": errs})
			}
		})
	}
}

// flips calls try for the body with one bit flipped at every byte offset (every bit in the thorough tier).
func (g *c30Gen) flips(orig []byte, try func(mut []byte) (bool, func(string))) {
	for off := range orig {
		bits := []int{g.r.Intn(8)}
		if kit.Thorough() {
			bits = []int{0, 1, 2, 3, 4, 5, 6, 7}
		}
		for _, bit := range bits {
			mut := bytes.Clone(orig)
			mut[off] ^= 1 << bit
			if ok, emit := try(mut); ok {
				emit(fmt.Sprintf("bit %d of body byte %d/%d flipped after signing", bit, off, len(orig)))
			}
		}
	}
}

// ------------------------------------------------------------------------------------ bearer

func (g *c30Gen) verifyBearer(m *protoacl.BearerToken, cur uint64) (bool, string) {
	g.e.epoch = cur
	g.reset()
	_, err := g.svc.VerifyBearerTokenMessage(m)
	if err != nil {
		return false, err.Error()
	}
	return true, ""
}

func (g *c30Gen) buildBearer(scheme string, iat, nbf, exp uint64, n3ok bool) (*protoacl.BearerToken, *ident) {
	issuer := newIdent()
	var bt bearer.Token
	tab := eacl.ConstructTable([]eacl.Record{eacl.ConstructRecord(eacl.ActionDeny, eacl.OperationGet, []eacl.Target{eacl.NewTargetByRole(eacl.RoleOthers)})})
	if g.r.Intn(2) == 0 {
		tab.SetCID(randCID(g.r))
	}
	bt.SetEACLTable(tab)
	if g.r.Intn(2) == 0 {
		bt.ForUser(newIdent().id)
	}
	bt.SetIat(iat)
	bt.SetNbf(nbf)
	bt.SetExp(exp)
	if scheme == "n3" {
		acc, invoc, verif := g.n3Witness(n3ok)
		bt.SetIssuer(acc)
		bt.AttachSignature(neofscrypto.NewN3Signature(invoc, verif))
	} else {
		must(bt.Sign(issuer.signer(schemeIdx(scheme))))
	}
	if iat == 0 && nbf == 0 && exp == 0 && scheme != "n3" {
		m := bt.ProtoMessage()
		m.Body.Lifetime = &protoacl.BearerToken_Body_TokenLifetime{}
		m.Signature = signRaw(issuer.signer(schemeIdx(scheme)), stable(m.Body))
		return m, issuer
	}
	return bt.ProtoMessage(), issuer
}

func (g *c30Gen) emitBearer(m *protoacl.BearerToken, cur uint64, wf bool, sig, scheme string, n3ok bool, how string) {
	lt := m.GetBody().GetLifetime()
	in := c30In{Kind: "bearer", Wf: wf, Scheme: scheme, Sig: sig, N3ok: n3ok, Cur: int64(cur),
		Iat: int64(lt.GetIat()), Nbf: int64(lt.GetNbf()), Exp: int64(lt.GetExp())}
	ok, errs := g.verifyBearer(m, cur)
	g.emit(in, ok, kit.M{"how": how, "err": errs})
}

func (g *c30Gen) genBearer() {
	r := g.r
	for _, cur := range []uint64{1, 7, 1000, 2147483000} {
		for d := range 27 {
			sch := pick(r, schemeNames...)
			m, _ := g.buildBearer(sch, cur-1+uint64(d%3), cur-1+uint64(d/3%3), cur-1+uint64(d/9), false)
			g.emitBearer(m, cur, true, "ok", sch, false, "lifetime")
		}
	}
	for d := range 8 {
		sch := pick(r, schemeNames...)
		m, _ := g.buildBearer(sch, uint64(d%2), uint64(d/2%2), uint64(d/4), false)
		g.emitBearer(m, 0, true, "ok", sch, false, "lifetime at epoch 0")
	}
	reps := 2
	if kit.Thorough() {
		reps = 8
	}
	for range reps {
		cur := uint64(10 + r.Intn(1000))
		for _, sch := range schemeNames {
			for _, f := range []string{"eacl", "owner", "exp", "nbf", "iat", "issuer"} {
				m, _ := g.buildBearer(sch, cur, cur, cur+1, false)
				switch f {
				case "eacl":
					m.Body.EaclTable.Records = nil
				case "owner":
					m.Body.OwnerId = newIdent().id.ProtoMessage()
				case "exp":
					m.Body.Lifetime.Exp++
				case "nbf":
					m.Body.Lifetime.Nbf--
				case "iat":
					m.Body.Lifetime.Iat--
				case "issuer":
					m.Body.Issuer = newIdent().id.ProtoMessage()
				}
				g.emitBearer(m, cur, true, "bad", sch, false, "signed field changed after signing: "+f)
			}
			m, _ := g.buildBearer(sch, cur, cur, cur+1, false)
			m.Signature.Sign[r.Intn(len(m.Signature.Sign))] ^= 1 << r.Intn(8)
			g.emitBearer(m, cur, true, "bad", sch, false, "signature value bit flipped")
			m, _ = g.buildBearer(sch, cur, cur, cur+1, false)
			m.Signature.Key = newIdent().pub
			g.emitBearer(m, cur, true, "bad", sch, false, "signature key replaced by another valid key")
			m, _ = g.buildBearer(sch, cur, cur, cur+1, false)
			other := (schemeIdx(sch) + 1 + r.Intn(2)) % 3
			m.Signature.Scheme = refs.SignatureScheme(other)
			g.emitBearer(m, cur, true, "bad", schemeNames[other], false, "scheme relabelled")
			m, _ = g.buildBearer(sch, cur, cur, cur+1, false)
			m.Signature.Scheme = refs.SignatureScheme(4 + r.Intn(100))
			g.emitBearer(m, cur, true, "ok", "unsupported", false, "unsupported scheme number")
			m, _ = g.buildBearer(sch, cur, cur, cur+1, false)
			m.Signature = signRaw(newIdent().signer(schemeIdx(sch)), stable(m.Body))
			g.emitBearer(m, cur, true, "bad", sch, false, "signed by a key that is not the issuer's")
			m, iss := g.buildBearer(sch, cur, cur, cur+1, false)
			m.Body.Lifetime.Exp += 3
			m.Signature = signRaw(iss.signer(schemeIdx(sch)), stable(m.Body))
			g.emitBearer(m, cur, true, "ok", sch, false, "changed and re-signed by the issuer")
			for _, f := range []string{"no signature", "no body", "no lifetime", "no eacl", "no issuer"} {
				m, iss := g.buildBearer(sch, cur, cur, cur+1, false)
				switch f {
				case "no signature":
					m.Signature = nil
				case "no body":
					m.Body = nil
				case "no lifetime":
					m.Body.Lifetime = nil
				case "no eacl":
					m.Body.EaclTable = nil
				case "no issuer":
					m.Body.Issuer = nil
				}
				if m.Body != nil && m.Signature != nil {
					m.Signature = signRaw(iss.signer(schemeIdx(sch)), stable(m.Body))
				}
				in := c30In{Kind: "bearer", Wf: false, Scheme: sch, Sig: "ok", Cur: int64(cur), Iat: int64(cur), Nbf: int64(cur), Exp: int64(cur + 1)}
				ok, errs := g.verifyBearer(m, cur)
				g.emit(in, ok, kit.M{"how": "structural defect (correctly signed): " + f, "err": errs})
			}
		}
		for _, mode := range append([]string{"good"}, n3BadModes...) {
			g.n3bad = mode
			m, _ := g.buildBearer("n3", cur, cur, cur+1, mode == "good")
			g.emitBearer(m, cur, true, "ok", "n3", mode == "good", "N3 witness, chain answer: "+mode)
			g.n3bad = ""
		}
	}
	for _, sch := range schemeNames {
		cur := uint64(10 + r.Intn(1000))
		m, _ := g.buildBearer(sch, cur, cur, cur+1, false)
		orig := stable(m.Body)
		g.flips(orig, func(mut []byte) (bool, func(string)) {
			var body protoacl.BearerToken_Body
			if proto.Unmarshal(mut, &body) != nil {
				return false, nil
			}
			if bytes.Equal(stable(&body), orig) {
				return false, nil
			}
			return true, func(how string) {
				g.emitBearer(&protoacl.BearerToken{Body: &body, Signature: m.Signature}, cur, true, "bad", sch, false, how)
			}
		})
	}
}

// ------------------------------------------------------------------------------------ V2 session

type v2Ctx struct {
	c     string // wild | same | other
	verbs []int
}

type v2Case struct {
	scheme        string
	nowMs         int64
	iat, nbf, exp int64 // seconds relative to baseSec
	ctxs          []v2Ctx
	rv            int
	n3ok          bool
	chain         []layerAbs // desired abstract chain, outermost origin first
	subjViaNNS    bool
	forgeTop      bool // the token itself names the legitimate issuer but is signed with a stranger's key
}

type v2Built struct {
	m      *protosession.SessionTokenV2
	issuer *ident
	reqCnr cid.ID
	ctxAbs []ctxAbs
}

func tsec(rel int64) time.Time { return time.Unix(baseSec+rel, 0) }

func verbsV2(vs []int) []sessionv2.Verb {
	out := make([]sessionv2.Verb, len(vs))
	for i, v := range vs {
		out[i] = sessionv2.Verb(v)
	}
	return out
}

// contexts realises the abstract context list: a wildcard context (if any) comes first, the others are
// ordered by container ID as Token.Validate demands; the abstract list is returned in token order.
func (g *c30Gen) contexts(cs []v2Ctx, reqCnr cid.ID) ([]sessionv2.Context, []ctxAbs) {
	type item struct {
		id cid.ID
		c  v2Ctx
	}
	var items []item
	for _, c := range cs {
		it := item{c: c}
		switch c.c {
		case "same":
			it.id = reqCnr
		case "other":
			it.id = randCID(g.r)
		}
		items = append(items, it)
	}
	sort.SliceStable(items, func(i, j int) bool { return bytes.Compare(items[i].id[:], items[j].id[:]) < 0 })
	var out []sessionv2.Context
	var abs []ctxAbs
	for _, it := range items {
		cx, err := sessionv2.NewContext(it.id, verbsV2(it.c.verbs))
		must(err)
		out = append(out, cx)
		abs = append(abs, ctxAbs{C: it.c.c, Verbs: it.c.verbs})
	}
	return out, abs
}

func (g *c30Gen) buildV2(c v2Case) v2Built {
	b := v2Built{issuer: newIdent(), reqCnr: randCID(g.r)}
	ctxs, abs := g.contexts(c.ctxs, b.reqCnr)
	b.ctxAbs = abs

	var st sessionv2.Token
	st.SetVersion(sessionv2.TokenCurrentVersion)
	must(st.SetSubjects([]sessionv2.Target{sessionv2.NewTargetUser(newIdent().id)}))
	must(st.SetContexts(ctxs))
	st.SetIat(tsec(c.iat))
	st.SetNbf(tsec(c.nbf))
	st.SetExp(tsec(c.exp))

	// origin chain, built from the innermost delegate outwards: layer k delegates to `delegate`
	delegate := b.issuer
	dNbf, dExp := c.nbf, c.exp
	type layerBuild struct {
		tok   *sessionv2.Token
		owner *ident
	}
	var layers []layerBuild
	for _, la := range c.chain {
		owner := newIdent()
		ot := new(sessionv2.Token)
		ot.SetVersion(sessionv2.TokenCurrentVersion)
		subj := sessionv2.NewTargetUser(delegate.id)
		if !la.Subj {
			subj = sessionv2.NewTargetUser(newIdent().id)
		} else if c.subjViaNNS {
			name := fmt.Sprintf("gw%d.neofs", g.r.Intn(1000000))
			g.e.nns[name] = map[util.Uint160]bool{delegate.id.ScriptHash(): true}
			subj = sessionv2.NewTargetNamed(name)
		}
		must(ot.SetSubjects([]sessionv2.Target{subj}))
		// contexts of the origin: a wildcard with the object verbs authorises everything below it
		verbs := []int{1, 2, 3, 4, 5, 6}
		if !la.Verbs {
			verbs = []int{7} // nothing the delegate uses
		}
		ocx, err := sessionv2.NewContext(cid.ID{}, verbsV2(verbs))
		must(err)
		must(ot.SetContexts([]sessionv2.Context{ocx}))
		oNbf, oExp := dNbf-10, dExp+10
		if !la.Narrow {
			if g.r.Intn(2) == 0 {
				oNbf = dNbf + 1 // the origin becomes valid later than its delegate
			} else {
				oExp = dExp - 1 // the origin expires earlier than its delegate
			}
		}
		ot.SetIat(tsec(oNbf))
		ot.SetNbf(tsec(oNbf))
		ot.SetExp(tsec(oExp))
		ot.SetFinal(la.Final)
		layers = append(layers, layerBuild{ot, owner})
		delegate, dNbf, dExp = owner, oNbf, oExp
	}
	// sign from the root inwards: an origin must be attached before its holder is serialised
	for k := len(layers) - 1; k >= 0; k-- {
		if k+1 < len(layers) {
			layers[k].tok.SetOrigin(layers[k+1].tok)
		}
		if c.chain[k].Sig == "bad" && c.chain[k].Forge {
			must(layers[k].tok.Sign(user.NewSigner(newIdent().signer(g.r.Intn(3)), layers[k].owner.id)))
		} else {
			must(layers[k].tok.Sign(layers[k].owner.signer(g.r.Intn(3))))
		}
	}
	if len(layers) > 0 {
		st.SetOrigin(layers[0].tok)
	}
	if c.scheme == "n3" {
		acc, invoc, verif := g.n3Witness(c.n3ok)
		st.SetIssuer(acc)
		st.AttachSignature(neofscrypto.NewN3Signature(invoc, verif))
	} else if c.forgeTop {
		must(st.Sign(user.NewSigner(newIdent().signer(schemeIdx(c.scheme)), b.issuer.id)))
	} else {
		must(st.Sign(b.issuer.signer(schemeIdx(c.scheme))))
	}
	b.m = st.ProtoMessage()
	// damaged origin signatures
	o := b.m.Origin
	for _, la := range c.chain {
		if la.Sig == "bad" && !la.Forge {
			o.Signature.Sign[g.r.Intn(len(o.Signature.Sign))] ^= 1 << g.r.Intn(8)
		}
		o = o.Origin
	}
	return b
}

func (g *c30Gen) verifyV2(m *protosession.SessionTokenV2, rv int, reqCnr cid.ID, nowMs int64) (bool, string) {
	g.e.now = time.UnixMilli(baseSec*1000 + nowMs)
	g.reset()
	_, err := g.svc.VerifySessionTokenMessage(m, sessionv2.Verb(rv), reqCnr)
	if err != nil {
		return false, err.Error()
	}
	return true, ""
}

// absV2 reads lifetime and contexts back from the message.
func absV2(m *protosession.SessionTokenV2, reqCnr cid.ID, in *c30In) {
	lt := m.GetBody().GetLifetime()
	in.Iat, in.Nbf, in.Exp = int64(lt.GetIat())-baseSec, int64(lt.GetNbf())-baseSec, int64(lt.GetExp())-baseSec
	in.Ctxs = []ctxAbs{}
	for _, cx := range m.GetBody().GetContexts() {
		a := ctxAbs{C: "other", Verbs: []int{}}
		if cx.GetContainer() == nil {
			a.C = "wild"
		} else if bytes.Equal(cx.GetContainer().GetValue(), reqCnr[:]) {
			a.C = "same"
		}
		for _, v := range cx.GetVerbs() {
			a.Verbs = append(a.Verbs, int(v))
		}
		in.Ctxs = append(in.Ctxs, a)
	}
}

func (g *c30Gen) emitV2(c v2Case, b v2Built, wf bool, sig, scheme, how string) {
	in := c30In{Kind: "v2", Wf: wf, Scheme: scheme, Sig: sig, N3ok: c.n3ok, NowMs: c.nowMs, Rv: c.rv, Chain: c.chain}
	absV2(b.m, b.reqCnr, &in)
	ok, errs := g.verifyV2(b.m, c.rv, b.reqCnr, c.nowMs)
	g.emit(in, ok, kit.M{"how": how, "err": errs})
}

func goodV2(r *rand.Rand) v2Case {
	v := 1 + r.Intn(6)
	return v2Case{scheme: pick(r, schemeNames...), nowMs: 0, iat: -5, nbf: -5, exp: 5, ctxs: []v2Ctx{{c: "same", verbs: []int{v}}}, rv: v}
}

var nowU = []int64{-1500, -1000, -501, -500, -499, -1, 0, 1, 499, 500, 501, 999, 1000, 1499, 1500}

func sortedSubset(r *rand.Rand, from []int, must int) []int {
	var out []int
	for _, v := range from {
		if v == must || r.Intn(3) == 0 {
			out = append(out, v)
		}
	}
	if len(out) == 0 {
		out = []int{from[r.Intn(len(from))]}
	}
	return out
}

func (g *c30Gen) genV2() {
	r := g.r
	// (e) lifetimes x chain time (rounded to seconds by the service)
	for _, now := range nowU {
		for d := range 27 {
			c := goodV2(r)
			c.nowMs, c.iat, c.nbf, c.exp = now, int64(d%3)-1, int64(d/3%3)-1, int64(d/9)-1
			// (Token.Validate refuses nbf > exp and iat > exp; the lifetime predicate is false for every time then)
			g.emitV2(c, g.buildV2(c), true, "ok", c.scheme, "lifetime")
		}
	}
	// (f) contexts x request verb
	all := []int{1, 2, 3, 4, 5, 6, 7, 8, 9, 10, 11, 12}
	n := 150
	if kit.Thorough() {
		n = 2000
	}
	for k := range n {
		c := goodV2(r)
		c.rv = 1 + k%7
		var cs []v2Ctx
		target := 0
		if r.Intn(2) == 0 {
			target = c.rv
		}
		if r.Intn(3) == 0 {
			cs = append(cs, v2Ctx{c: "wild", verbs: sortedSubset(r, all, pick(r, 0, target))})
		}
		if r.Intn(3) != 0 {
			cs = append(cs, v2Ctx{c: "same", verbs: sortedSubset(r, all, pick(r, 0, target))})
		}
		for range r.Intn(3) {
			cs = append(cs, v2Ctx{c: "other", verbs: sortedSubset(r, all, pick(r, 0, c.rv))})
		}
		if len(cs) == 0 {
			cs = append(cs, v2Ctx{c: "other", verbs: []int{c.rv}})
		}
		// Validate: an explicit context must not repeat the verbs of the wildcard one
		if cs[0].c == "wild" {
			ok := true
			for _, x := range cs[1:] {
				if fmt.Sprint(x.verbs) == fmt.Sprint(cs[0].verbs) {
					ok = false
				}
			}
			if !ok {
				cs = cs[:1]
			}
		}
		c.ctxs = cs
		g.emitV2(c, g.buildV2(c), true, "ok", c.scheme, "contexts")
	}
	for rv := 1; rv <= 7; rv++ { // single-context table: every (class, verb) pair
		for _, cl := range []string{"wild", "same", "other"} {
			for tv := 1; tv <= 7; tv++ {
				c := goodV2(r)
				c.rv, c.ctxs = rv, []v2Ctx{{c: cl, verbs: []int{tv}}}
				g.emitV2(c, g.buildV2(c), true, "ok", c.scheme, "single context")
			}
		}
	}
	reps := 2
	if kit.Thorough() {
		reps = 8
	}
	for range reps {
		for _, sch := range schemeNames {
			c := goodV2(r)
			c.scheme = sch
			g.emitV2(c, g.buildV2(c), true, "ok", sch, "valid")
			for _, f := range []string{"appdata", "issuer", "subjects", "exp", "nbf", "iat", "verbs", "container", "final"} {
				b := g.buildV2(c)
				body := b.m.Body
				switch f {
				case "appdata":
					body.Appdata = []byte("x")
				case "issuer":
					body.Issuer = newIdent().id.ProtoMessage()
				case "subjects":
					body.Subjects = append(body.Subjects, body.Subjects[0])
				case "exp":
					body.Lifetime.Exp++
				case "nbf":
					body.Lifetime.Nbf--
				case "iat":
					body.Lifetime.Iat--
				case "verbs":
					body.Contexts[0].Verbs = append(body.Contexts[0].Verbs, 12)
				case "container":
					body.Contexts[0].Container = nil // widen to a wildcard
				case "final":
					body.Final = !body.Final
				}
				g.emitV2(c, b, true, "bad", sch, "signed field changed after signing: "+f)
			}
			b := g.buildV2(c)
			b.m.Signature.Sign[r.Intn(len(b.m.Signature.Sign))] ^= 1 << r.Intn(8)
			g.emitV2(c, b, true, "bad", sch, "signature value bit flipped")
			b = g.buildV2(c)
			b.m.Signature.Key = newIdent().pub
			g.emitV2(c, b, true, "bad", sch, "signature key replaced by another valid key")
			b = g.buildV2(c)
			other := (schemeIdx(sch) + 1 + r.Intn(2)) % 3
			b.m.Signature.Scheme = refs.SignatureScheme(other)
			g.emitV2(c, b, true, "bad", schemeNames[other], "scheme relabelled")
			b = g.buildV2(c)
			b.m.Signature.Scheme = refs.SignatureScheme(4 + r.Intn(100))
			g.emitV2(c, b, true, "ok", "unsupported", "unsupported scheme number")
			b = g.buildV2(c)
			b.m.Signature = signRaw(newIdent().signer(schemeIdx(sch)), stable(b.m.Body))
			g.emitV2(c, b, true, "bad", sch, "signed by a key that is not the issuer's")
			b = g.buildV2(c)
			b.m.Body.Lifetime.Exp += 3
			b.m.Signature = signRaw(b.issuer.signer(schemeIdx(sch)), stable(b.m.Body))
			g.emitV2(c, b, true, "ok", sch, "changed and re-signed by the issuer")
			// structural defects, correctly signed (Token.FromProtoMessage / Token.Validate)
			for _, f := range []string{"no signature", "no body", "no lifetime", "no issuer", "no subjects", "no contexts", "version 1",
				"verbs unsorted", "verbs duplicated", "contexts unsorted", "contexts duplicated", "explicit = wildcard verbs",
				"appdata too big", "9 subjects", "13 verbs", "context without verbs", "empty subject"} {
				c2 := c
				c2.ctxs = []v2Ctx{{c: "same", verbs: []int{1, 2, 3, 4, 5, 6}}}
				b := g.buildV2(c2)
				body := b.m.Body
				switch f {
				case "no signature":
					b.m.Signature = nil
				case "no body":
					b.m.Body = nil
				case "no lifetime":
					body.Lifetime = nil
				case "no issuer":
					body.Issuer = nil
				case "no subjects":
					body.Subjects = nil
				case "no contexts":
					body.Contexts = nil
				case "version 1":
					body.Version = 1
				case "verbs unsorted":
					body.Contexts[0].Verbs = []protosession.Verb{2, 1}
				case "verbs duplicated":
					body.Contexts[0].Verbs = []protosession.Verb{2, 2}
				case "contexts unsorted":
					hi := cid.ID{}
					for i := range hi {
						hi[i] = 0xFF
					}
					lo := cid.ID{1}
					body.Contexts = []*protosession.SessionContextV2{{Container: hi.ProtoMessage(), Verbs: []protosession.Verb{2}},
						{Container: lo.ProtoMessage(), Verbs: []protosession.Verb{3}}, body.Contexts[0]}
				case "contexts duplicated":
					body.Contexts = append(body.Contexts, &protosession.SessionContextV2{Container: body.Contexts[0].Container, Verbs: []protosession.Verb{2}})
				case "explicit = wildcard verbs":
					body.Contexts = append([]*protosession.SessionContextV2{{Verbs: body.Contexts[0].Verbs}}, body.Contexts...)
				case "appdata too big":
					body.Appdata = make([]byte, sessionv2.MaxAppDataSize+1)
				case "9 subjects":
					for range 8 {
						body.Subjects = append(body.Subjects, &protosession.Target{Identifier: &protosession.Target_OwnerId{OwnerId: newIdent().id.ProtoMessage()}})
					}
				case "13 verbs":
					body.Contexts[0].Verbs = []protosession.Verb{1, 2, 3, 4, 5, 6, 7, 8, 9, 10, 11, 12, 13}
				case "context without verbs":
					body.Contexts[0].Verbs = nil
				case "empty subject":
					body.Subjects = []*protosession.Target{{}}
				}
				if b.m.Body != nil && b.m.Signature != nil {
					b.m.Signature = signRaw(b.issuer.signer(schemeIdx(sch)), stable(b.m.Body))
				}
				// abstract relation components of the undamaged token: only wf = FALSE matters
				in := c30In{Kind: "v2", Wf: false, Scheme: sch, Sig: "ok", NowMs: 0, Rv: 2, Iat: c.iat, Nbf: c.nbf, Exp: c.exp,
					Ctxs: []ctxAbs{{C: "same", Verbs: []int{1, 2, 3, 4, 5, 6}}}}
				ok, errs := g.verifyV2(b.m, 2, b.reqCnr, 0)
				g.emit(in, ok, kit.M{"how": "structural defect (correctly signed): " + f, "err": errs})
			}
		}
		for _, mode := range append([]string{"good"}, n3BadModes...) {
			c := goodV2(r)
			c.scheme, c.n3ok = "n3", mode == "good"
			g.n3bad = mode
			g.emitV2(c, g.buildV2(c), true, "ok", "n3", "N3 witness, chain answer: "+mode)
			g.n3bad = ""
		}
	}
	// (h) delegation chains
	good := layerAbs{Sig: "ok", Subj: true, Narrow: true, Verbs: true}
	var chains [][]layerAbs
	chains = append(chains, []layerAbs{good}, []layerAbs{good, good}, []layerAbs{good, good, good, good}, []layerAbs{good, good, good, good, good})
	for _, pos := range []int{0, 1} {
		for d := range 5 {
			bad := good
			switch d {
			case 0:
				bad.Sig = "bad"
			case 1:
				bad.Subj = false
			case 2:
				bad.Narrow = false
			case 3:
				bad.Verbs = false
			case 4:
				bad.Final = true
			}
			if pos == 0 {
				chains = append(chains, []layerAbs{bad}, []layerAbs{bad, good})
			} else {
				chains = append(chains, []layerAbs{good, bad})
			}
		}
	}
	for range reps {
		for _, ch := range chains {
			c := goodV2(r)
			c.chain = ch
			c.subjViaNNS = r.Intn(3) == 0
			g.emitV2(c, g.buildV2(c), true, "ok", c.scheme, fmt.Sprintf("delegation chain of %d origin(s), nns=%v", len(ch), c.subjViaNNS))
		}
		// forgeries: the issuer field names the legitimate party (for a delegated token: a subject of its
		// origin), the signature is made with another key - on the token itself and at every level of the chain
		for n := 0; n <= 3; n++ {
			for _, sch := range schemeNames {
				c := goodV2(r)
				c.scheme = sch
				for range n {
					c.chain = append(c.chain, good)
				}
				c.forgeTop = true
				g.emitV2(c, g.buildV2(c), true, "bad", sch, fmt.Sprintf("forged: token under %d origin(s) names the legitimate issuer, signed with a stranger's key", n))
			}
			for lvl := range n {
				c := goodV2(r)
				for range n {
					c.chain = append(c.chain, good)
				}
				c.chain = append([]layerAbs{}, c.chain...)
				c.chain[lvl].Sig, c.chain[lvl].Forge = "bad", true
				g.emitV2(c, g.buildV2(c), true, "ok", c.scheme, fmt.Sprintf("forged: origin %d of %d names the legitimate issuer, signed with a stranger's key", lvl+1, n))
			}
		}
		// top-level signature broken under a good chain
		c := goodV2(r)
		c.chain = []layerAbs{good}
		b := g.buildV2(c)
		b.m.Body.Lifetime.Exp++
		g.emitV2(c, b, true, "bad", c.scheme, "delegated token changed after signing")
	}
	// (i) single-bit flips of the signed body
	for _, sch := range schemeNames {
		c := goodV2(r)
		c.scheme = sch
		c.ctxs = []v2Ctx{{c: "wild", verbs: []int{8}}, {c: "same", verbs: []int{1, 2, 3, 4, 5, 6}}}
		b := g.buildV2(c)
		orig := stable(b.m.Body)
		g.flips(orig, func(mut []byte) (bool, func(string)) {
			var body protosession.SessionTokenV2_Body
			if proto.Unmarshal(mut, &body) != nil {
				return false, nil
			}
			if bytes.Equal(stable(&body), orig) {
				return false, nil
			}
			return true, func(how string) {
				m := &protosession.SessionTokenV2{Body: &body, Signature: b.m.Signature}
				in := c30In{Kind: "v2", Wf: true, Scheme: sch, Sig: "bad", NowMs: c.nowMs, Rv: c.rv}
				absV2(m, b.reqCnr, &in)
				ok, errs := g.verifyV2(m, c.rv, b.reqCnr, c.nowMs)
				g.emit(in, ok, kit.M{"how": how, "err": errs})
			}
		})
	}
}

func genC30(outPath string, only map[int]bool) {
	g := newC30Gen(outPath, kit.Rand(30))
	g.only = only
	defer g.out.Close()
	g.genV1()
	g.genBearer()
	g.genV2()
	fmt.Println("records", g.idx)
}
