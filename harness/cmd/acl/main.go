// Command acl is the conformance harness of the `acl` family (C28, C30, C33): it builds real
// containers, ACL words, eACL tables, tokens and signed requests, runs the real checkers of
// neofs-node on them and writes {in: abstract input, out: verdict} records validated by TLC.
package main

import (
	"fmt"
	"os"
)

func main() {
	if len(os.Args) < 3 {
		fmt.Fprintln(os.Stderr, "usage: acl c28|c30|c33 <out.ndjson>")
		os.Exit(2)
	}
	switch os.Args[1] {
	case "c28":
		genC28(os.Args[2])
	case "c30":
		genC30(os.Args[2], nil)
	case "c30cache": // acl c30cache <scripts.ndjson> <trace.ndjson>
		runC30Cache(os.Args[2], os.Args[3])
	case "c30replay": // acl c30replay <out> <idx>...: regenerate and keep the given record indices only
		only := map[int]bool{}
		for _, a := range os.Args[3:] {
			var k int
			fmt.Sscan(a, &k)
			only[k] = true
		}
		genC30(os.Args[2], only)
	case "c33": // acl c33 <out> [model-scripts.ndjson]
		scripts := ""
		if len(os.Args) > 3 {
			scripts = os.Args[3]
		}
		genC33(os.Args[2], scripts, nil)
	case "c33replay": // acl c33replay <out> <model-scripts|-> <idx>...
		only := map[int]bool{}
		for _, a := range os.Args[4:] {
			var k int
			fmt.Sscan(a, &k)
			only[k] = true
		}
		scripts := os.Args[3]
		if scripts == "-" {
			scripts = ""
		}
		genC33(os.Args[2], scripts, only)
	case "c28replay":
		replayC28(os.Args[2], os.Args[3])
	default:
		fmt.Fprintln(os.Stderr, "unknown sub-command", os.Args[1])
		os.Exit(2)
	}
}
