package main

// C30, cache half: histories of spec/TokenCache.tla executed on ONE real acl/v2.Service. The same token
// bytes are verified repeatedly while the FS chain time (Tick) and the epoch (Epoch = the node's new-epoch
// handlers: epoch++ and purge of the token check caches) move; nothing else ever purges the caches.
// Output: one trace event per spec action, validated by TraceTokenCache.tla.

import (
	"time"

	cid "github.com/nspcc-dev/neofs-sdk-go/container/id"
	oid "github.com/nspcc-dev/neofs-sdk-go/object/id"
	protoacl "github.com/nspcc-dev/neofs-sdk-go/proto/acl"
	protosession "github.com/nspcc-dev/neofs-sdk-go/proto/session"
	"github.com/nspcc-dev/neofs-sdk-go/session"
	sessionv2 "github.com/nspcc-dev/neofs-sdk-go/session/v2"
	"verifharness/internal/kit"
)

type cacheTok struct {
	Kind string `json:"kind"`
	Good bool   `json:"good"`
	Iat  int64  `json:"iat"`
	Nbf  int64  `json:"nbf"`
	Exp  int64  `json:"exp"`
}

type cacheEv struct {
	Ev  string `json:"ev"`
	K   int    `json:"k,omitempty"`
	Res *bool  `json:"res,omitempty"`
	Err string `json:"err,omitempty"`
}

type cacheScript struct {
	Cat   []cacheTok `json:"cat"`
	Steps []cacheEv  `json:"steps"`
}

type realTok struct {
	v1     *protosession.SessionToken
	v2     *protosession.SessionTokenV2
	bearer *protoacl.BearerToken
	cnr    cid.ID
	obj    oid.ID
}

func (g *c30Gen) realise(t cacheTok) realTok {
	const verb = 2 // GET
	switch t.Kind {
	case "v2":
		b := g.buildV2(v2Case{scheme: pick(g.r, schemeNames...), iat: t.Iat, nbf: t.Nbf, exp: t.Exp, ctxs: []v2Ctx{{c: "same", verbs: []int{verb}}}, rv: verb})
		if !t.Good {
			b.m.Signature.Sign[g.r.Intn(len(b.m.Signature.Sign))] ^= 1 << g.r.Intn(8)
		}
		return realTok{v2: b.m, cnr: b.reqCnr}
	case "v1":
		b := g.buildV1(v1Case{scheme: pick(g.r, schemeNames...), iat: uint64(t.Iat), nbf: uint64(t.Nbf), exp: uint64(t.Exp), cnrMatch: true, obj: "any", tv: verb, rv: verb})
		if !t.Good {
			b.m.Signature.Sign[g.r.Intn(len(b.m.Signature.Sign))] ^= 1 << g.r.Intn(8)
		}
		return realTok{v1: b.m, cnr: b.reqCnr, obj: b.reqObj}
	default:
		m, _ := g.buildBearer(pick(g.r, schemeNames...), uint64(t.Iat), uint64(t.Nbf), uint64(t.Exp), false)
		if !t.Good {
			m.Signature.Sign[g.r.Intn(len(m.Signature.Sign))] ^= 1 << g.r.Intn(8)
		}
		return realTok{bearer: m}
	}
}

func runC30Cache(scriptsPath, outPath string) {
	g := newC30Gen(outPath, kit.Rand(3030))
	defer g.out.Close()
	const verb = 2
	for _, sc := range kit.ReadNDJSON[cacheScript](scriptsPath) {
		// a new node life: fresh tokens, time 0, epoch 1, empty caches
		toks := make([]realTok, len(sc.Cat))
		for i, t := range sc.Cat {
			toks[i] = g.realise(t)
		}
		now, epoch := int64(0), uint64(1)
		g.e.now, g.e.epoch = time.Unix(baseSec+now, 0), epoch
		g.reset()
		g.out.Emit(cacheEv{Ev: "Init"})
		for _, st := range sc.Steps {
			switch st.Ev {
			case "Tick":
				now++
				g.e.now = time.Unix(baseSec+now, 0)
				g.out.Emit(cacheEv{Ev: "Tick"})
			case "Epoch": // what cmd/neofs-node does on a new epoch event
				epoch++
				g.e.epoch = epoch
				g.reset()
				g.out.Emit(cacheEv{Ev: "Epoch"})
			case "Verify":
				t := toks[st.K-1]
				var err error
				switch {
				case t.v2 != nil:
					_, err = g.svc.VerifySessionTokenMessage(t.v2, sessionv2.Verb(verb), t.cnr)
				case t.v1 != nil:
					_, err = g.svc.VerifySessionV1TokenMessage(t.v1, session.ObjectVerb(verb), t.cnr, t.obj)
				default:
					_, err = g.svc.VerifyBearerTokenMessage(t.bearer)
				}
				ok := err == nil
				ev := cacheEv{Ev: "Verify", K: st.K, Res: &ok}
				if err != nil {
					ev.Err = err.Error()
				}
				g.out.Emit(ev)
			default:
				panic("event " + st.Ev)
			}
		}
	}
}
